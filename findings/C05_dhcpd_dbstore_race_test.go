//go:build unix

package dhcpd

import (
	"net"
	"net/netip"
	"sync"
	"testing"
	"time"

	"github.com/AdguardTeam/AdGuardHome/internal/dhcpsvc"
	"github.com/stretchr/testify/require"
)

// TestC05_DBStoreWhileLeasing: the database store (run after each change,
// outside the lease lock) walks the lease table while another DHCP message
// or an admin request changes it (go test -race).
func TestC05_DBStoreWhileLeasing(t *testing.T) {
	conf := defaultV4ServerConf()
	s4, err := v4Create(conf)
	require.NoError(t, err)
	srv := &server{srv4: s4, conf: &ServerConfig{dbFilePath: t.TempDir() + "/leases.json"}}

	stop := make(chan struct{})
	wg := sync.WaitGroup{}
	wg.Add(1)
	go func() {
		defer wg.Done()
		for {
			select {
			case <-stop:
				return
			default:
				_ = srv.dbStore()
			}
		}
	}()
	for i := 0; i < 100; i++ {
		l := &dhcpsvc.Lease{
			Hostname: "static-client",
			HWAddr:   net.HardwareAddr{0xAA, 0xAA, 0xAA, 0xAA, 0xAA, byte(i)},
			IP:       netip.AddrFrom4([4]byte{192, 168, 10, byte(10 + i%50)}),
			IsStatic: true,
			Expiry:   time.Time{},
		}
		require.NoError(t, s4.AddStaticLease(l))
		require.NoError(t, s4.RemoveStaticLease(l))
	}
	close(stop)
	wg.Wait()
}
