package dnsforward

import (
	"crypto/tls"
	"net"
	"net/http"
	"net/netip"
	"net/url"
	"sync"
	"testing"
	"time"

	"github.com/AdguardTeam/AdGuardHome/internal/client"
	"github.com/AdguardTeam/AdGuardHome/internal/filtering"
	"github.com/AdguardTeam/dnsproxy/proxy"
	"github.com/miekg/dns"
	"github.com/stretchr/testify/assert"
	"github.com/stretchr/testify/require"
)

// cidRecorder records the ClientID each processed request is attributed to
// (the value handed to the clients container to pick per-client upstreams).
type cidRecorder struct {
	mu  sync.Mutex
	ids []string
}

func (c *cidRecorder) CustomUpstreamConfig(clientID string, _ netip.Addr) (conf *proxy.CustomUpstreamConfig) {
	c.mu.Lock()
	defer c.mu.Unlock()
	c.ids = append(c.ids, clientID)

	return nil
}
func (c *cidRecorder) UpdateCommonUpstreamConfig(_ *client.CommonUpstreamConfig) {}
func (c *cidRecorder) ClearUpstreamCache()                                        {}

// TestStaleClientIDAfterReconfigure: a ClientID cached for the proxy's request
// #1 must not be attributed to the first plain-DNS request served after the
// server was reconfigured (Reconfigure re-creates the proxy and with it the
// request-ID counter, but the ClientID cache keyed by request ID survives).
func TestStaleClientIDAfterReconfigure(t *testing.T) {
	rec := &cidRecorder{}
	s := createTestServer(t, &filtering.Config{
		BlockingMode: filtering.BlockingModeDefault,
	}, ServerConfig{
		UDPListenAddrs: []*net.UDPAddr{{}},
		TCPListenAddrs: []*net.TCPAddr{{}},
		TLSConf:        &TLSConfig{ServerName: "example.com"},
		Config: Config{
			UpstreamDNS:      []string{"127.0.0.1:1"},
			UpstreamMode:     UpstreamModeLoadBalance,
			EDNSClientSubnet: &EDNSClientSubnet{Enabled: false},
			ClientsContainer: rec,
		},
		ServePlainDNS: true,
	})

	// A DoH request with ClientID "cli" is the current proxy's request #1.
	dohCtx := &proxy.DNSContext{
		Proto: proxy.ProtoHTTPS, Req: createTestMessageWithType("example.org.", dns.TypeA),
		Addr: netip.MustParseAddrPort("1.2.3.4:44300"), RequestID: 1,
		HTTPRequest: &http.Request{URL: &url.URL{Path: "/dns-query/cli"}, Host: "example.com", TLS: &tls.ConnectionState{ServerName: "example.com"}},
	}
	require.NoError(t, s.HandleBefore(nil, dohCtx))

	// The admin changes a DNS setting: the server is reconfigured, the proxy re-created.
	require.NoError(t, s.Reconfigure(nil))
	t.Cleanup(func() { _ = s.Stop() })

	// The first request the new proxy serves is a plain UDP query from somebody else.
	addr := s.dnsProxy.Addr(proxy.ProtoUDP)
	cl := &dns.Client{Net: "udp", Timeout: 2 * time.Second}
	_, _, _ = cl.Exchange(createTestMessageWithType("example.org.", dns.TypeA), addr.String())

	rec.mu.Lock()
	defer rec.mu.Unlock()
	require.NotEmpty(t, rec.ids)
	assert.Equal(t, "", rec.ids[0], "a plain UDP request was attributed to the ClientID of an earlier DoH request")
}
