package dnsforward

import (
	"context"
	"net"
	"net/http"
	"net/http/httptest"
	"net/netip"
	"sync"
	"sync/atomic"
	"testing"
	"time"

	"github.com/AdguardTeam/AdGuardHome/internal/aghnet"
	"github.com/AdguardTeam/AdGuardHome/internal/aghtest"
	"github.com/AdguardTeam/AdGuardHome/internal/filtering"
	"github.com/AdguardTeam/AdGuardHome/internal/filtering/hashprefix"
	"github.com/AdguardTeam/AdGuardHome/internal/querylog"
	"github.com/AdguardTeam/dnsproxy/proxy"
	"github.com/AdguardTeam/dnsproxy/upstream"
	"github.com/AdguardTeam/golibs/logutil/slogutil"
	"github.com/AdguardTeam/golibs/timeutil"
	"github.com/miekg/dns"
	"github.com/stretchr/testify/assert"
	"github.com/stretchr/testify/require"
)

// TestC05_BlockPageLookupWhileReconfiguring: a query blocked by safe browsing
// is answered with the address of the block-page host, which genBlockedHost
// looks up through s.proxy() — taking serverLock for reading — while request
// filtering already holds serverLock for reading.  As soon as an admin
// operation queues for the write lock between the two acquisitions, the
// request, the writer and every later reader wait for each other forever.
func TestC05_BlockPageLookupWhileReconfiguring(t *testing.T) {
	const hostname = "wmconvirus.narod.ru"

	sbChecker := hashprefix.New(&hashprefix.Config{
		CacheTime: 10 * time.Minute,
		CacheSize: 10000,
		Upstream:  aghtest.NewBlockUpstream(hostname, true),
	})
	filterConf := &filtering.Config{
		BlockingMode:          filtering.BlockingModeDefault,
		ProtectionEnabled:     true,
		SafeBrowsingEnabled:   true,
		SafeBrowsingChecker:   sbChecker,
		SafeBrowsingBlockHost: "standard-block.dns.adguard.com", // the default: a host name
	}
	s := createTestServer(t, filterConf, ServerConfig{
		UDPListenAddrs: []*net.UDPAddr{{}},
		TCPListenAddrs: []*net.TCPAddr{{}},
		TLSConf:        &TLSConfig{},
		Config: Config{
			UpstreamMode:     UpstreamModeLoadBalance,
			EDNSClientSubnet: &EDNSClientSubnet{Enabled: false},
			ClientsContainer: EmptyClientsContainer{},
		},
		ServePlainDNS: true,
	})
	// answer the block-page host lookup locally, a little slowly
	ups := aghtest.NewUpstreamMock(func(req *dns.Msg) (resp *dns.Msg, err error) {
		time.Sleep(2 * time.Millisecond)
		resp = (&dns.Msg{}).SetReply(req)
		resp.Answer = []dns.RR{&dns.A{
			Hdr: dns.RR_Header{Name: req.Question[0].Name, Rrtype: dns.TypeA, Class: dns.ClassINET, Ttl: 60},
			A:   net.IP{94, 140, 14, 33},
		}}

		return resp, nil
	})
	s.conf.UpstreamConfig.Upstreams = []upstream.Upstream{ups}
	startDeferStop(t, s)

	stop := make(chan struct{})
	var answered atomic.Int64
	wg := sync.WaitGroup{}
	for i := 0; i < 8; i++ {
		wg.Add(1)
		go func() {
			defer wg.Done()
			for {
				select {
				case <-stop:
					return
				default:
				}
				pctx := &proxy.DNSContext{Proto: proxy.ProtoUDP, Req: createTestMessage(hostname + "."), Addr: netip.MustParseAddrPort("1.2.3.4:5353")}
				if s.handleDNSRequest(nil, pctx) == nil && pctx.Res != nil {
					answered.Add(1)
				}
			}
		}()
	}
	// the admin side: anything that takes the write lock (protection switch, access lists, dns_config, pause timer)
	wg.Add(1)
	go func() {
		defer wg.Done()
		for {
			select {
			case <-stop:
				return
			default:
				s.serverLock.Lock()
				s.serverLock.Unlock() //nolint:staticcheck
			}
		}
	}()

	time.Sleep(500 * time.Millisecond)
	before := answered.Load()
	time.Sleep(500 * time.Millisecond)
	after := answered.Load()
	close(stop)

	done := make(chan struct{})
	go func() { wg.Wait(); close(done) }()
	select {
	case <-done:
	case <-time.After(3 * time.Second):
		t.Errorf("DNS request goroutines and the writer are stuck (deadlock); %d requests answered in total", after)
	}
	assert.Greater(t, after, before, "no request was answered during the second half second")
	require.NotZero(t, after)
}

// TestC05_QueryLogClientLookupWhileReconfiguring: the log/statistics stage
// holds serverLock for reading while it asks the query log whether to record
// the query; the query log asks home for the client, and home's lookup
// (clientOrArtificial) asks the DNS server whether the client is blocked —
// IsBlockedClient takes serverLock for reading again.  A writer queued in
// between deadlocks DNS serving.
func TestC05_QueryLogClientLookupWhileReconfiguring(t *testing.T) {
	s := createTestServer(t, &filtering.Config{BlockingMode: filtering.BlockingModeDefault}, ServerConfig{
		UDPListenAddrs: []*net.UDPAddr{{}},
		TCPListenAddrs: []*net.TCPAddr{{}},
		TLSConf:        &TLSConfig{},
		Config: Config{
			UpstreamMode:     UpstreamModeLoadBalance,
			EDNSClientSubnet: &EDNSClientSubnet{Enabled: false},
			ClientsContainer: EmptyClientsContainer{},
		},
		ServePlainDNS: true,
	})
	ups := aghtest.NewUpstreamMock(func(req *dns.Msg) (resp *dns.Msg, err error) {
		resp = (&dns.Msg{}).SetReply(req)
		resp.Answer = []dns.RR{&dns.A{
			Hdr: dns.RR_Header{Name: req.Question[0].Name, Rrtype: dns.TypeA, Class: dns.ClassINET, Ttl: 60},
			A:   net.IP{1, 2, 3, 4},
		}}

		return resp, nil
	})
	s.conf.UpstreamConfig.Upstreams = []upstream.Upstream{ups}

	ignored, err := aghnet.NewIgnoreEngine(nil)
	require.NoError(t, err)

	ql, err := querylog.New(querylog.Config{
		Logger:      slogutil.NewDiscardLogger(),
		Anonymizer:  aghnet.NewIPMut(nil),
		Enabled:     true,
		FileEnabled: false,
		RotationIvl: timeutil.Day,
		MemSize:     100,
		BaseDir:     t.TempDir(),
		Ignored:     ignored,
		// what home.(*clientsContainer).clientOrArtificial does for every id
		FindClient: func(ids []string) (c *querylog.Client, err error) {
			c = &querylog.Client{}
			for _, id := range ids {
				ip, _ := netip.ParseAddr(id)
				time.Sleep(time.Millisecond)
				c.Disallowed, c.DisallowedRule = s.IsBlockedClient(ip, id)
			}

			return c, nil
		},
	})
	require.NoError(t, err)
	s.queryLog = ql
	startDeferStop(t, s)

	stop := make(chan struct{})
	var answered atomic.Int64
	wg := sync.WaitGroup{}
	for i := 0; i < 8; i++ {
		wg.Add(1)
		go func() {
			defer wg.Done()
			for {
				select {
				case <-stop:
					return
				default:
				}
				pctx := &proxy.DNSContext{Proto: proxy.ProtoUDP, Req: createTestMessage("example.org."), Addr: netip.MustParseAddrPort("1.2.3.4:5353")}
				if s.handleDNSRequest(nil, pctx) == nil && pctx.Res != nil {
					answered.Add(1)
				}
			}
		}()
	}
	wg.Add(1)
	go func() {
		defer wg.Done()
		for {
			select {
			case <-stop:
				return
			default:
				s.serverLock.Lock()
				s.serverLock.Unlock() //nolint:staticcheck
			}
		}
	}()

	time.Sleep(500 * time.Millisecond)
	before := answered.Load()
	time.Sleep(500 * time.Millisecond)
	after := answered.Load()
	close(stop)

	done := make(chan struct{})
	go func() { wg.Wait(); close(done) }()
	select {
	case <-done:
	case <-time.After(3 * time.Second):
		t.Errorf("DNS request goroutines and the writer are stuck (deadlock); %d requests answered in total", after)
	}
	assert.Greater(t, after, before, "no request was answered during the second half second")
}

// TestC05_QueryLogSearchVsLoggingLockOrder: the query-log search holds the
// in-memory buffer lock while it resolves the client of every buffered entry;
// home's lookup asks the DNS server whether the client is blocked
// (IsBlockedClient takes serverLock for reading).  The DNS request path takes
// the two locks in the opposite order: processQueryLogsAndStats holds
// serverLock for reading while queryLog.Add takes the buffer lock.  With any
// admin operation waiting for the serverLock write lock the three wait for
// each other forever.
func TestC05_QueryLogSearchVsLoggingLockOrder(t *testing.T) {
	s := createTestServer(t, &filtering.Config{BlockingMode: filtering.BlockingModeDefault}, ServerConfig{
		UDPListenAddrs: []*net.UDPAddr{{}},
		TCPListenAddrs: []*net.TCPAddr{{}},
		TLSConf:        &TLSConfig{},
		Config: Config{
			UpstreamMode:     UpstreamModeLoadBalance,
			EDNSClientSubnet: &EDNSClientSubnet{Enabled: false},
			ClientsContainer: EmptyClientsContainer{},
		},
		ServePlainDNS: true,
	})
	ups := aghtest.NewUpstreamMock(func(req *dns.Msg) (resp *dns.Msg, err error) {
		resp = (&dns.Msg{}).SetReply(req)
		resp.Answer = []dns.RR{&dns.A{
			Hdr: dns.RR_Header{Name: req.Question[0].Name, Rrtype: dns.TypeA, Class: dns.ClassINET, Ttl: 60},
			A:   net.IP{1, 2, 3, 4},
		}}

		return resp, nil
	})
	s.conf.UpstreamConfig.Upstreams = []upstream.Upstream{ups}

	ignored, err := aghnet.NewIgnoreEngine(nil)
	require.NoError(t, err)

	var armed atomic.Bool
	inSearch := make(chan struct{})
	release := make(chan struct{})
	handlers := map[string]http.HandlerFunc{}
	ql, err := querylog.New(querylog.Config{
		Logger:      slogutil.NewDiscardLogger(),
		Anonymizer:  aghnet.NewIPMut(nil),
		Enabled:     true,
		FileEnabled: false,
		RotationIvl: timeutil.Day,
		MemSize:     100,
		BaseDir:     t.TempDir(),
		Ignored:     ignored,
		HTTPRegister: func(method, path string, h http.HandlerFunc) {
			handlers[method+" "+path] = h
		},
		// what home.(*clientsContainer).clientOrArtificial does for every id
		FindClient: func(ids []string) (c *querylog.Client, err error) {
			c = &querylog.Client{}
			for _, id := range ids {
				if id == "9.9.9.9" && armed.CompareAndSwap(true, false) {
					// test scheduling only: hold the search here until the
					// other two goroutines are in place
					close(inSearch)
					<-release
				}

				ip, _ := netip.ParseAddr(id)
				c.Disallowed, c.DisallowedRule = s.IsBlockedClient(ip, id)
			}

			return c, nil
		},
	})
	require.NoError(t, err)
	require.NoError(t, ql.Start(context.Background()))
	s.queryLog = ql
	startDeferStop(t, s)

	query := func(client string) {
		pctx := &proxy.DNSContext{Proto: proxy.ProtoUDP, Req: createTestMessage("example.org."), Addr: netip.MustParseAddrPort(client + ":5353")}
		assert.NoError(t, s.handleDNSRequest(nil, pctx))
	}

	// 1. one logged query
	query("9.9.9.9")

	finished := make(chan string, 3)
	// 2. GET /control/querylog: holds bufferLock, about to look the client up
	armed.Store(true)
	go func() {
		w := httptest.NewRecorder()
		handlers["GET /control/querylog"](w, httptest.NewRequest(http.MethodGet, "/control/querylog", nil))
		finished <- "search"
	}()
	<-inSearch

	// 3. a DNS request: holds serverLock (read), wants bufferLock to log itself
	go func() { query("2.2.2.2"); finished <- "query" }()
	time.Sleep(200 * time.Millisecond)

	// 4. any admin operation that takes serverLock for writing
	go func() {
		s.serverLock.Lock()
		s.serverLock.Unlock() //nolint:staticcheck
		finished <- "admin"
	}()
	time.Sleep(200 * time.Millisecond)

	// 5. let the search go on: it takes serverLock (read) under bufferLock
	close(release)

	for i := 0; i < 3; i++ {
		select {
		case <-finished:
		case <-time.After(3 * time.Second):
			t.Fatalf("deadlock: only %d of the 3 operations finished", i)
		}
	}
}
