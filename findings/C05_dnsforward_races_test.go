package dnsforward

import (
	"bytes"
	"net"
	"net/http"
	"net/http/httptest"
	"net/netip"
	"sync"
	"testing"

	"github.com/AdguardTeam/AdGuardHome/internal/filtering"
	"github.com/AdguardTeam/dnsproxy/proxy"
	"github.com/miekg/dns"
	"github.com/stretchr/testify/require"
)

func c05Server(t *testing.T) (s *Server) {
	t.Helper()
	return createTestServer(t, &filtering.Config{BlockingMode: filtering.BlockingModeDefault}, ServerConfig{
		UDPListenAddrs: []*net.UDPAddr{{}},
		TCPListenAddrs: []*net.TCPAddr{{}},
		TLSConf:        &TLSConfig{},
		Config: Config{
			UpstreamMode:     UpstreamModeLoadBalance,
			EDNSClientSubnet: &EDNSClientSubnet{Enabled: false},
			ClientsContainer: EmptyClientsContainer{},
		},
		ServePlainDNS:  true,
		ConfigModified: func() {},
	})
}

func runWhile(t *testing.T, bg func(), fg func()) {
	t.Helper()
	stop := make(chan struct{})
	wg := sync.WaitGroup{}
	for i := 0; i < 4; i++ {
		wg.Add(1)
		go func() {
			defer wg.Done()
			for {
				select {
				case <-stop:
					return
				default:
					bg()
				}
			}
		}()
	}
	fg()
	close(stop)
	wg.Wait()
}

// TestC05_AccessSetWhileServing: the pre-request hook reads the access manager
// while POST /control/access/set replaces it (go test -race).
func TestC05_AccessSetWhileServing(t *testing.T) {
	s := c05Server(t)
	runWhile(t, func() {
		pctx := &proxy.DNSContext{Proto: proxy.ProtoUDP, Req: createTestMessageWithType("example.org.", dns.TypeA), Addr: netip.MustParseAddrPort("1.2.3.4:5353"), RequestID: 1}
		_ = s.HandleBefore(nil, pctx)
	}, func() {
		for i := 0; i < 200; i++ {
			body := `{"allowed_clients":[],"disallowed_clients":["9.9.9.9"],"blocked_hosts":["blocked.example"]}`
			r := httptest.NewRequest(http.MethodPost, "/control/access/set", bytes.NewBufferString(body))
			s.handleAccessSet(httptest.NewRecorder(), r)
		}
	})
}

// TestC05_DNSConfigWhileServing: request processing reads the AAAA-disabled and
// DNSSEC switches while POST /control/dns_config changes them (go test -race).
func TestC05_DNSConfigWhileServing(t *testing.T) {
	s := c05Server(t)
	runWhile(t, func() {
		req := createTestMessageWithType("example.org.", dns.TypeAAAA)
		pctx := &proxy.DNSContext{Proto: proxy.ProtoUDP, Req: req, Addr: netip.MustParseAddrPort("1.2.3.4:5353"), RequestID: 1}
		dctx := &dnsContext{proxyCtx: pctx}
		_ = s.processInitial(dctx)
		_ = s.setReqAD(req)
	}, func() {
		for i := 0; i < 200; i++ {
			on := i%2 == 0
			dc := &jsonDNSConfig{DisableIPv6: &on, DNSSECEnabled: &on}
			_ = s.setConfig(dc)
		}
	})
}

// TestC05_CacheClearWhileReconfiguring: POST /control/cache_clear reads the
// proxy pointer while Reconfigure (e.g. triggered by a certificate reload,
// which does not take the control lock) replaces it (go test -race).
func TestC05_CacheClearWhileReconfiguring(t *testing.T) {
	s := c05Server(t)
	require.NoError(t, s.Start())
	t.Cleanup(func() { _ = s.Stop() })
	runWhile(t, func() {
		s.handleCacheClear(httptest.NewRecorder(), nil)
	}, func() {
		for i := 0; i < 3; i++ {
			require.NoError(t, s.Reconfigure(nil))
		}
	})
}
