package filtering

import (
	"bytes"
	"net/http"
	"net/http/httptest"
	"sync"
	"testing"
	"time"

	"github.com/stretchr/testify/require"
)

func c05Filter(t *testing.T) (d *DNSFilter) {
	t.Helper()
	d, err := New(&Config{
		DataDir:        t.TempDir(),
		ConfigModified: func() {},
		HTTPClient:     &http.Client{Timeout: time.Second},
		FiltersUpdateIntervalHours: 24,
	}, nil)
	require.NoError(t, err)
	d.filtersInitializerChan = make(chan filtersInitializerParams, 1)
	t.Cleanup(d.Close)

	return d
}

// TestC05_SetRulesWhileEnablingFilters: POST /control/filtering/set_rules
// replaces the custom rules while the engine (re)build reads them.
func TestC05_SetRulesWhileEnablingFilters(t *testing.T) {
	d := c05Filter(t)
	stop := make(chan struct{})
	wg := sync.WaitGroup{}
	wg.Add(1)
	go func() {
		defer wg.Done()
		for {
			select {
			case <-stop:
				return
			default:
				d.EnableFilters(false)
			}
		}
	}()
	for i := 0; i < 50; i++ {
		r := httptest.NewRequest(http.MethodPost, "/control/filtering/set_rules", bytes.NewBufferString(`{"rules":["||a.example^","||b.example^"]}`))
		d.handleFilteringSetRules(httptest.NewRecorder(), r)
	}
	close(stop)
	wg.Wait()
}

// TestC05_UpdateIntervalWhileRefreshing: the refresh worker reads the update
// interval while POST /control/filtering/config changes it.
func TestC05_UpdateIntervalWhileRefreshing(t *testing.T) {
	d := c05Filter(t)
	stop := make(chan struct{})
	wg := sync.WaitGroup{}
	wg.Add(1)
	go func() {
		defer wg.Done()
		for {
			select {
			case <-stop:
				return
			default:
				_ = d.periodicallyRefreshFilters(time.Second)
			}
		}
	}()
	for i := 0; i < 50; i++ {
		r := httptest.NewRequest(http.MethodPost, "/control/filtering/config", bytes.NewBufferString(`{"enabled":true,"interval":24}`))
		d.handleFilteringConfig(httptest.NewRecorder(), r)
	}
	close(stop)
	wg.Wait()
}
