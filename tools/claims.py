# Claims table (exec'd by gen_manifest.py).  claim(id, technique, level text, DESIGN ref)
NOT_APPLICABLE = {}

claim("C11",
      "exhaustive route census + wrapper-chain resolution + CFG path guards on SSA (static analysis)",
      "Decides, for every HTTP route registration in the program (all packages, all five GOOS builds in the thorough tier), that it goes through the one authenticated registrar or carries the auth wrapper, that only the statement's public routes lack it, that the method/content-type/control-lock guard and the auth decision closures let the handler run only on the accepted edges, and that every server serves only that mux. "
      "This is the 'programs' quantifier of the property (every route registered anywhere) decided completely; the 'inputs' quantifier (request shapes) is decided only as far as the guards' CFG shape: URL normalisation, cookie/credential values and expiry are not decided.",
      "DESIGN.md §5 C11")
