# Claims table (exec'd by gen_manifest.py).  claim(id, technique, level text, DESIGN ref)
NOT_APPLICABLE = {}

claim("C11",
      "exhaustive route census + wrapper-chain resolution + CFG path guards on SSA (static analysis)",
      "Decides, for every HTTP route registration in the program (all packages, all five GOOS builds in the thorough tier), that it goes through the one authenticated registrar or carries the auth wrapper, that only the statement's public routes lack it, that the method/content-type/control-lock guard and the auth decision closures let the handler run only on the accepted edges, and that every server serves only that mux. "
      "This is the 'programs' quantifier of the property (every route registered anywhere) decided completely; the 'inputs' quantifier (request shapes) is decided only as far as the guards' CFG shape: URL normalisation, cookie/credential values and expiry are not decided.",
      "DESIGN.md §5 C11")

claim("C14",
      "exhaustive census of file-write primitive call sites + backward provenance slice of the path argument + must-reach typestate on SSA (static analysis)",
      "Decides that no code path can hand a path derived from the configuration file, the lease database or a filter-list file to anything but the atomic replace primitives (renameio via maybe.WriteFile / aghrenameio pending files), that each of the three keeps an atomic writer, that the unix wrappers resolve to renameio's temp-file + atomic-rename calls, and that a pending file is always closed-and-replaced or cleaned up. "
      "This is the structural necessary condition for the crash_points quantifier: replacing the atomic writer by a truncate-and-write, or renaming the live file away before the replace, is exactly what tests cannot see and what the rule reports. The crash semantics of rename/fsync themselves (renameio, the filesystem) are trusted, and Windows is out of scope as documented upstream.",
      "DESIGN.md §5 C14")

claim("C13",
      "panic-obligation discharge on SSA (non-nil map dataflow with verified accessor summaries and static folding of type assertions) + table/stamp agreement + return-shape check (static analysis)",
      "Decides, for every function of the upgrade package including each generic instantiation, that no map store can hit a nil map, no possibly-nil map value enters the document, no single-result type assertion / explicit panic / unchecked index exists, that every error return of the upgrade hands back the original bytes, and that the step table is complete, indexed only after version validation, that slot i stamps version i+1 on every successful path; and that no step reads, through a typed accessor or assertion, a key under which an earlier step stored a Go value whose type YAML would not give back (the type part of path independence: one run vs. several partial runs). "
      "These are the structural necessary conditions of 'never panics', 'fails leaving the content unchanged', 'stamped with the current schema version' and (types only) 'independent of where the upgrade is split' over all YAML inputs; the value part of path independence, idempotence, preservation of unrelated settings and loader acceptance are value-level and not decided.",
      "DESIGN.md §5 C13")

claim("C10",
      "persist-after-mutate must-reach analysis with caller propagation + typestate (provenance) of registered leases + sibling agreement of table writers + validation path guards on SSA (static analysis)",
      "Decides that every instruction that changes the DHCPv4 lease table or a registered lease is followed, on every path to a successful return of its outermost entry point, by the database-store notification (so the file lists the leases in memory), that a lease obtained from the allocator or the table is never registered a second time (no duplicate entries in the list, the API or the file), that the lease list, both indexes and the pool-offset set are always changed together, that static-lease insertion is reached only after the validation calls succeeded, that the function that makes room for a new lease can remove more than one lease per call (a lease can conflict with one lease by hardware address and another by IP) and callers register only after it, and that a hostname change drops the old name from the hostname index and indexes the new one. "
      "These are structural necessary conditions of 'the lease database lists exactly the leases in memory, each once'; address/client uniqueness over message histories, pool exhaustion, expiry and matching logic inside the mutators are value-level and not decided.",
      "DESIGN.md §5 C10")

claim("C07",
      "encoder/decoder key-set and token-kind agreement from go/types struct tags vs. the typed AST of the streaming decoder + guarded-store field invariant and dominating length guards for request integers + funnel / must-reach / cursor-provenance checks on SSA (static analysis)",
      "Decides that every key encoding/json writes for a log entry and its nested result types has a decoder case with the right token kind (so an entry read back from querylog.json carries every recorded field), that the request integers limit/offset can reach the slicing code only non-negative and without overflow and every request-bounded slice is length-guarded (no parameter value crashes the request), that entries enter the buffer through one funnel and the buffer is encoded and cleared in one critical section, that shutdown flushes memory to the file, and that the paging cursor advances with every scanned record. "
      "Exactly-once/newest-first over memory+file+rotated file, cursor/offset partitioning and search-term semantics quantify over histories and values and are not decided.",
      "DESIGN.md §5 C07")

claim("C17",
      "exhaustive file-open site census with path provenance + dominating safe-pattern guard on the same cleaned value + entry-point path guards + who-may-write of the pattern list + ban rules (static analysis)",
      "Decides, on every path of every function of the filter-list packages, that a file is opened only from internal data locations or under a passed pathMatchesAny test on the very cleaned value that is opened; that add and set-url reach storage/download only after validation, which itself succeeds only through the cleaned-path pattern match or the HTTP(S) URL check; that the matcher accepts only a successful glob match on a path equal to its cleaned absolute form; that no file transport exists; and that the pattern list comes only from configuration. "
      "This is the structural part of 'no spelling of a location reads a file outside the patterns, at add, set-url and refresh'; filepath.Match/Clean semantics and symlinks are trusted/not decided.",
      "DESIGN.md §5 C17")

claim("C15",
      "CFG path guards, reaching-store resolution of named results, who-may-write enumeration of list metadata (static analysis)",
      "Decides that the downloaded file can replace a list only on the success edge, that the success flag is false or implies err == nil for the very error being returned and no transfer/parse error is overwritten with nil before that decision, that the parser writes only into the pending file, that an unchanged checksum never triggers a rewrite, that rule count / checksum are written only after a successful replace, from parsing the stored file, as a rollback, or when copying back a list that really was updated with the same ID, that only a 200 response without transport error is parsed; and, for the parser, that the HTML test is applied to the trimmed line for as long as nothing was written and fails the parse, that exactly the trimmed line plus newline is written, only for lines classified as rules from the trimmed line alone, with count and checksum advanced once over those same bytes (so re-parsing the stored form reproduces them), and that parsing stops at the first line error. "
      "These are the structural conditions of 'a failed refresh changes nothing' and of the stored normal form being stable; what counts as an HTML/binary line and the effect of a fault at each byte offset are value-level and not decided.",
      "DESIGN.md §5 C15")

claim("C16",
      "who-may-call / who-may-write enumeration, provenance slices of cache key and value, CFG edge guards on the extractors' return shapes, sibling agreement proxy-replaced => cache-cleared (static analysis)",
      "Decides that a ClientID reaches request processing only through one cache written by the pre-request hook from the extractor's result and keyed by the proxy's unique request ID on both sides, that the cache is cleared whenever that ID namespace is re-created, that every non-empty ClientID returned is lower-cased and passed label validation on its path, that extractors run only for HTTPS/TLS/QUIC (plain and DNSCrypt never yield one), that an extraction error ends in SERVFAIL before any access check or cache write, and that the server-name and DoH-path forms carry their shape guards (immediate subdomain, strict mismatch is an error, first segment dns-query, exactly two segments, cleaned path). "
      "Correctness of the string surgery itself for look-alike suffixes, path cleaning and Host parsing is value-level and not decided.",
      "DESIGN.md §5 C16")

claim("C12",
      "CFG edge guards on the login handler, provenance slice of the throttling key, must-pass ordering in newCookie / checkSession / removeSession / loadSessions, lock-dominance for the limiter and session maps (static analysis)",
      "Decides that the password can be evaluated only after the limiter's check reported no block, that check and count use one value that derives only from the TCP peer address, that every failed evaluation increments and every successful one clears the record before the session exists, that a session authenticates only when found and unexpired, that expiry and logout delete it from table and file (table first), that only unexpired sessions are loaded at start, and that both maps are touched only under their locks. "
      "Attempt counting, time windows, clock behaviour and bbolt durability are value/time-level and not decided.",
      "DESIGN.md §5 C12")

claim("C19",
      "interprocedural backward provenance slice with sha256.Sum256 as sanitiser, constant slice-bound checks, comparison operand types, provenance of cached hash lists (static analysis)",
      "Decides that nothing derived from the queried host name can reach the message sent to the lookup service except through SHA-256 and a constant-bounded 2-byte prefix slice (plus constants and the configured suffix), that the cache is keyed by the same 2-byte prefixes, that the verdict compares complete 32-byte hashes, that the hash lists written to the cache are exactly the hex-decoded TXT strings of the current response (never filtered, never carried over from an old entry), and that an expired entry cannot decide. "
      "Label enumeration (four labels, ICANN suffix), malformed TXT handling and cache transparency over arbitrary lookup histories are not decided.",
      "DESIGN.md §5 C19")

claim("C18",
      "typed-AST key/selector agreement, comparison-operator shape and CFG path guards on SSA, who-may-write enumeration, provenance of the tested offset (static analysis)",
      "Decides that a day range enters a schedule only after validation of that same range (range checks plus whole minutes), that nobody else writes a schedule, that weekday X is (de)serialised from/to field X with start/end not swapped and identical JSON/YAML keys, that blocked-service rules are applied only on the not-paused edge of Schedule.Contains(time.Now()), that the range test is the half-open start <= x < end, that the validator accepts a non-zero range only after each of its five comparisons, and that Contains takes weekday and wall-clock offset (Clock, not elapsed time) from the instant converted to the schedule's zone. "
      "The value-level equality of Contains with wall-clock containment for all instants and zones, and round-trip equality of serialised schedules, are not decided.",
      "DESIGN.md §5 C18")

claim("C08",
      "who-may-call enumeration, CFG edge guards, SSA value identity and must-pass ordering for the anonymiser, constant slice bounds of the mask (static analysis)",
      "Decides that the log and the statistics are each written from one place, only on the true edge of decisions that are true only after the client's ignore flag was consulted and with a negative ignore-list lookup for the queried host, with identifier lists that always contain the client address; that the loaded anonymiser runs on the address slice before both decisions and both records and that exactly that slice (and the string computed from it afterwards) is what gets recorded; that file entries are re-checked against ignore list and client flag and the API applies the current anonymiser; that the anonymiser is installed exactly when the setting is on; and that the mask zeroes the constant regions [2:4) of the To4 form and [6:16) of the 16-byte form. "
      "Ignore-pattern semantics, name normalisation and entries recorded before a configuration change are not decided.",
      "DESIGN.md §5 C08")

claim("C03",
      "CFG edge guards and phi-leaf classification of the access decision on SSA, static-callee reachability from the pre-request hook, asserted shape of the pinned dnsproxy hook order (static analysis)",
      "Decides that the access check is installed as the proxy's pre-request hook and runs before any handler, that a request is admitted only with a negative client verdict and (single question) a negative blocked-host verdict and otherwise leaves through preBlockedResponse, that nothing reachable from the hook logs, counts or resolves, that UDP and DNSCrypt get no packet back while every other transport gets REFUSED, that allow-list mode is derived from all three allowed collections, that allowed/disallowed collections are consulted only in their mode, that 'blocked' is produced only under the allow-list rule (both excluded) or the block-list rule (one excluded), that the three parts of the decision read one snapshot under the server lock, that the list builder stores every accepted entry (address, prefix or ClientID) and both lists are built from their configured slices, and that the address check tests every stored network. "
      "CIDR containment, zones, ClientID case and blocked-host pattern semantics are value-level and not decided.",
      "DESIGN.md §5 C03")

claim("C01",
      "stage/checker list extraction from slice literals, CFG path guards, static reachability to exchange primitives with a classified site table, enum/switch agreement and constructor mapping, non-nil constructor fixpoint (static analysis)",
      "Decides the structural skeleton of 'blocked means answered locally': request filtering precedes the upstream stage, which resolves only when no response is set; a filtered result always sets a (non-nil) blocked response before the stage returns; every site that can send a DNS message upstream is classified and request filtering reaches only the block-page lookup (with the configured host as question) and the hash-prefix lookup; the blocking-mode switch covers exactly the declared modes with their documented constructors; checkers run in the documented order with first-match-wins and allow-before-block; protection/filtering flags gate every verdict and come from the protection status; rule engines are swapped, never removed, while serving; allow-listed results skip response filtering. "
      "Which names a rule set matches (urlfilter), the synthetic RR content and per-client settings values are not decided.",
      "DESIGN.md §5 C01")
claim("C02",
      "type-switch case extraction with operand provenance, loop-exit path guards, store-ordering (must-pass) checks, switch-case set vs declared constants (static analysis)",
      "Decides that every CNAME, A, AAAA and HTTPS answer record is checked with a value from that record (both hint kinds; the hint checker reports only filtered results), that the loop covers the whole answer section and is left early only on an error or a filtered record, that a filtered record saves the original response before replacing the delivered one, that exactly the four documented result reasons skip response filtering, that it runs exactly under protection-on / from-upstream / filtering-enabled, and that the from-upstream flag is set to true after every successful resolution. "
      "Rule matching on names and IP literals and per-record allow overrides are urlfilter semantics and not decided.",
      "DESIGN.md §5 C02")

claim("C06",
      "loop-variant recognition (visited-set idiom) from SSA loop structure and value identity, abstract evaluation of the precedence comparator over a finite domain, provenance of appended addresses, who-may-write enumeration, must-pass ordering for question save/restore (static analysis)",
      "Decides termination of rewrite evaluation by a syntactic ranking argument (every iteration of the CNAME chase adds the very host it continues with to a set created outside the loop, a seen host leaves the loop, the table is fixed under the read lock, helper loops are counted), that answered addresses come only from the IP field of entries found for the finally resolved host with the requested type, that the original question is saved before renaming and restored with the CNAME prepended, that a table match yields the Rewritten reason which ends host checking, that entries enter the table only normalised and are never edited in place; and that the comparator the matched entries are sorted with, evaluated over the finite domain {is-CNAME} x {is-wildcard} x {sign of the pattern-length difference}, puts CNAME before address entries, exact before wildcard and the longer wildcard first, with the sorted list cut at the first wildcard keeping at least one entry. "
      "Wildcard (suffix) matching itself and agreement with the documentation examples are value-level and not decided.",
      "DESIGN.md §5 C06")

claim("C04",
      "call-ordering and edge guards on SSA, abstract evaluation of the subnet comparator over a finite sign domain, field-set agreement between the index's add/remove siblings, who-may-mutate enumeration, lock dominance over static callers (static analysis)",
      "Decides that lookups ask ClientID, then exact address, then subnets, then the DHCP MAC, each only after the previous failed; that own settings / own blocked services are applied only on their opt-out edges from the client's corresponding fields; that index changes are reached only after the clash checks returned nil inside one hold of the storage mutex, with an update removing the stored client's entries before adding the new ones; that add writes and remove deletes exactly all maps of the index, nobody else mutates them, and every identifier map is covered by a clash check and a finder; that every index access happens under the storage mutex; and that the subnet comparator, evaluated over the finite domain of prefix-length and address relations, orders the longer prefix first (antisymmetric, zero only for the same subnet) while the lookup stops at the first containing prefix — so the most specific subnet wins. "
      "Consistency over arbitrary operation histories and prefix containment itself are value/history-level and not decided.",
      "DESIGN.md §5 C04")

claim("C09",
      "lock dominance, SSA value identity and referrer sets for the persisted unit, increment counting in unit.add, provenance of the assembled window (static analysis)",
      "Decides that the hourly rollover swaps and persists inside one hold of the unit write lock, that exactly the swapped-out unit's serialisation is persisted unmodified under its own id without reading anything back, that an update adds once, under the lock, after validation bounded the result code, that adding increments the total and exactly the entry's result slot by one on every path, that a clean close persists the current unit and start-up reloads and deserialises the unit of the hour it starts in, and that the reported window is assembled from the database and the live unit on every read. "
      "Hour/window arithmetic, many-hour gaps and series/total relations are arithmetic over runtime values and not decided.",
      "DESIGN.md §5 C09")

claim("C20",
      "loop-variant recognition on natural loops (range, counted, budget counter in phi or spilled cell, decremented field) + CFG edge guards for seek result classes (static analysis)",
      "Decides termination of every loop of the file reader and the multi-file reader by a syntactic ranking argument, and the mapping of seek outcomes: the probe validator yields too-early / not-found / too-late / ok exactly on its index conditions, a probe is used only after validation, the reader is positioned only on an exact timestamp match, and the multi-file seek goes to the older file on too-early, to the start of the newest file only on too-late, fails on not-found and makes the file current on success; and that the buffer windows cover the 16 KiB entry limit: the chunk is re-read whenever fewer bytes than the limit lie before the read position, chunk bound/offset/allocation use one constant of at least two limits, and the probe window reaches one limit back and is allocated one limit beyond. "
      "That reverse reading returns every line exactly once and that the position after a seek is right are arithmetic over runtime offsets and buffer boundaries and are not decided.",
      "DESIGN.md §5 C20")

claim("C05",
      "type-based lockset analysis (must-lockset dataflow per function, must/may entry locksets by fixpoint over the VTA call graph, handler entry locksets from the route census), guarded-by agreement per field incl. whole-struct copies, re-entrancy and lock-order (SCC) checks, protected-header leak check (static analysis)",
      "Decides, for the serving structures named by the property (DNS server and its configuration, access manager, client registry and indexes, filter and its configuration, query log, statistics, DHCPv4 lease table): (G) every field that is written after start-up and has a documented guard is accessed only with that guard held (write mode for writes) unless every conflicting access shares some other lock; (X) no lock is acquired on a call chain that may already hold it, including read-after-read on an RWMutex; (O) the lock-order graph has no cycle through a lock of those structures; (L) a guarded slice/map that some writer changes in place is not returned as a raw header by a function that releases the lock; (A) a field accessed through sync/atomic is accessed plainly (also inside a whole-struct copy) only where a common lock orders the two. "
      "These are the structural necessary conditions of 'no data race, no deadlock' over all schedules: a dropped lock, a read lock where a write is needed, an unlocked accessor on the request path, a recursive RLock or an inverted nesting is reported with the field/lock and function. Not decided: races on fields without a documented guard, happens-before through channels/Once/goroutine start, instance-level aliasing (locks and fields are identified by type), third-party internals, panics in general, well-formedness and latency of responses. Three genuine deadlock hazards that need a cross-package API change are listed as known findings.",
      "DESIGN.md §5 C05")
