#!/bin/bash
# Recomputes detected_by.obligations of every seeded/*/meta.json with the current checker (parallel, scratch worktrees).
cd /verif || exit 2
./check list >/dev/null || exit 2
K=${K:-10}
SNAP=/tmp/rw/snapR; mkdir -p /tmp/rw /tmp/ev; cp bin/aghverif $SNAP
HEAD=$(git -C /repo rev-parse HEAD)
ls -d seeded/*/ | sed 's|seeded/||; s|/||' > /tmp/rw/rjobs
export PATH=/opt/veriftools/go1.26.8/bin:$PATH GOFLAGS=-mod=mod GOPROXY=off GOTOOLCHAIN=local GOWORK=off CGO_ENABLED=0
for k in $(seq 1 $K); do
  WT=/tmp/rw/wt$k
  [ -d $WT ] || git -C /repo worktree add -q --detach $WT $HEAD || exit 2
  ( cd $WT && git checkout -q --detach $HEAD && git checkout -q -- . && git clean -fdq internal
    awk -v k=$k -v K=$K 'NR%K==k%K' /tmp/rw/rjobs | while read name; do
      id=${name%%-*}
      git apply /verif/seeded/$name/patch.diff || { echo "$name does not apply"; continue; }
      EV=/tmp/ev/r_$name; rm -rf $EV; mkdir -p $EV; cp /verif/known_findings.txt $EV/
      AGHVERIF_REPO=$WT AGHVERIF_DIR=$EV $SNAP check $id quick 2>&1 | grep -E "^$id-" | awk '{print $1}' | sort -u > /tmp/rw/keys_$name.txt
      rm -rf $EV; git checkout -q -- .; git clean -fdq internal
    done ) &
done
wait
python3 - <<'PY'
import json,os
n=0
for d in sorted(os.listdir('/verif/seeded')):
    f='/verif/seeded/%s/meta.json'%d
    kf='/tmp/rw/keys_%s.txt'%d
    if not (os.path.exists(f) and os.path.exists(kf)): continue
    keys=[l.strip() for l in open(kf) if l.strip()]
    m=json.load(open(f))
    m['detected']=len(keys)>0
    m.setdefault('detected_by',{})['obligations']=keys
    m['detected_by']['check']='./check %s quick'%m['property']
    json.dump(m,open(f,'w'),indent=1)
    n+=1
    if not keys: print('NOT DETECTED',d)
print('refreshed',n)
PY
