#!/bin/sh
# usage: seedrun.sh <patch.diff> <prop> [tier]   -- applies a seeded change to /repo, runs the check, reverts.
P=$1; ID=$2; TIER=${3:-quick}
cd /repo || exit 2
if [ -n "$(git status --porcelain)" ]; then echo "/repo not clean"; exit 2; fi
git apply "$P" || { echo "patch does not apply"; exit 2; }
/verif/check "$ID" "$TIER" > /tmp/seedrun.out 2>&1; rc=$?
git checkout -- . ; git clean -fdq internal 2>/dev/null
grep -v "^analysed build" /tmp/seedrun.out | grep -v "^    " | head -${LINES_MAX:-12}
echo "exit=$rc"
# restore evidence from git so a seeded run never leaves its evidence behind
cd /verif && git checkout -- evidence 2>/dev/null
exit 0
