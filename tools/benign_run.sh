#!/bin/bash
# False-alarm regression: applies each behaviour-preserving refactoring under /verif/benign (written by fresh sub-agents,
# full suite passes with each) to /repo, runs ALL 20 checks, reverts.  Every check must stay silent.
cd /verif || exit 2
[ -n "$(git -C /repo status --porcelain)" ] && { echo "/repo not clean"; exit 2; }
./check list >/dev/null
rc=0
for d in benign/*/; do
  n=$(basename $d)
  git -C /repo apply /verif/$d/patch.diff || { echo "$n does not apply"; rc=1; continue; }
  for j in 01 02 03 04 05 06 07 08 09 10 11 12 13 14 15 16 17 18 19 20; do
    out=$(./check C$j quick 2>&1); if [ $? -ne 0 ]; then echo "benign $n -> C$j fires: $(echo "$out" | grep -E "^C$j-" | head -2 | cut -c1-200)"; rc=1; fi
  done
  git -C /repo checkout -q -- . ; git -C /repo clean -fdq internal
done
git checkout -q -- evidence 2>/dev/null
[ $rc = 0 ] && echo "all benign refactorings silent on all checks"
exit $rc
