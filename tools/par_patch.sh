#!/bin/bash
# usage: par_patch.sh <worktree> <patch.diff> <label> [ids...]
# Applies a patch in a scratch worktree (never /repo), runs the listed checks (default all 20) against that worktree
# with evidence going to a scratch directory, reverts.  Used to run many seeds / refactorings in parallel.
WT=$1; P=$2; L=$3; shift 3
IDS=${@:-C01 C02 C03 C04 C05 C06 C07 C08 C09 C10 C11 C12 C13 C14 C15 C16 C17 C18 C19 C20}
EV=/tmp/ev/$L; rm -rf $EV; mkdir -p $EV; cp /verif/known_findings.txt $EV/
# snapshot of the checker binary, so that the checker can be rebuilt while a batch is running
[ -z "$AGHVERIF_BIN" ] && /verif/check list >/dev/null   # rebuilds the checker when its sources are newer
BIN=${AGHVERIF_BIN:-/verif/bin/aghverif}; cp $BIN $EV/aghverif; BIN=$EV/aghverif
export PATH=/opt/veriftools/go1.26.8/bin:$PATH GOFLAGS=-mod=mod GOPROXY=off GOTOOLCHAIN=local GOWORK=off CGO_ENABLED=0
cd $WT || exit 2
[ -n "$(git status --porcelain -uno)" ] && { echo "$L: $WT not clean"; exit 2; }
git apply "$P" || { echo "$L: patch does not apply"; exit 2; }
for id in $IDS; do
  out=$(AGHVERIF_REPO=$WT AGHVERIF_DIR=$EV $BIN check $id ${TIER:-quick} 2>&1); rc=$?
  if [ $rc -ne 0 ]; then echo "$L -> $id fires: $(echo "$out" | grep -E "^$id-" | head -${LINES_MAX:-3} | cut -c1-260)"; fi
done
git checkout -q -- . ; git clean -fdq internal
rm -rf $EV
echo "$L done"
