#!/bin/bash
# False-alarm probes: three behaviour-preserving rewrites of every function the rules anchor on; all checks must stay silent.
# usage: tools/probe_all.sh   (modifies /repo temporarily; restores it)
cd /verif || exit 2
[ -n "$(git -C /repo status --porcelain)" ] && { echo "/repo not clean"; exit 2; }
./check list >/dev/null
(cd checker && PATH=/opt/veriftools/go1.26.8/bin:$PATH GOFLAGS=-mod=mod GOPROXY=off GOTOOLCHAIN=local GOWORK=off go build -o ../bin/benignwrap ./cmd/benignwrap) || exit 2
python3 - <<'PY' > /tmp/wrap_targets.txt
import re,os
src="".join(open(os.path.join("/verif/checker/rules",f)).read() for f in os.listdir("/verif/checker/rules") if f.endswith(".go"))
for a in sorted(set(re.findall(r'p\.Fn\("([^"]*)"\)',src))):
    m=re.match(r'^\(\*?([\w/]+)\.(\w+)\)\.(\w+)$',a)
    if m: print(f"/repo/internal/{m.group(1)}:{m.group(2)}.{m.group(3)}")
    else:
        m=re.match(r'^([\w/]+)\.(\w+)$',a)
        if m: print(f"/repo/internal/{m.group(1)}:{m.group(2)}")
PY
rc=0
run() {
  for i in 01 02 03 04 05 06 07 08 09 10 11 12 13 14 15 16 17 18 19 20; do
    out=$(./check C$i quick 2>&1); if [ $? -ne 0 ]; then echo "probe $1: C$i fires"; echo "$out" | grep -E "^C$i-" | head -3; rc=1; fi
  done
  git -C /repo checkout -q -- . ; git -C /repo clean -fdq internal
}
python3 tools/benign_probe.py call; run call
python3 tools/benign_probe.py defer; run defer
bin/benignwrap < /tmp/wrap_targets.txt; run wrap
git checkout -q -- evidence 2>/dev/null
[ $rc = 0 ] && echo "all probes silent"
exit $rc
