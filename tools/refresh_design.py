#!/usr/bin/env python3
"""Assembles /verif/DESIGN.md from tools/design_head.md, the rule registry (bin/aghverif doc) and
tools/design_tail.md, inserting the seeded-change table generated from seeded/*/meta.json."""
import json, os, subprocess, glob
HERE = os.path.dirname(os.path.dirname(os.path.abspath(__file__)))
head = open(os.path.join(HERE, "tools", "design_head.md")).read()
tail = open(os.path.join(HERE, "tools", "design_tail.md")).read()
subprocess.run([os.path.join(HERE, "check"), "list"], capture_output=True)  # rebuilds the binary if needed
rules = subprocess.run([os.path.join(HERE, "bin", "aghverif"), "doc"], capture_output=True, text=True).stdout
titles = {json.loads(l)["id"]: json.loads(l)["title"] for l in open(os.path.join(HERE, "properties.jsonl"))}
out = []
for block in rules.split("### ")[1:]:
    pid = block[:3]
    out.append("### %s — %s\n%s" % (pid, titles.get(pid, ""), block[3:]))
rows = ["| seed | round | what was changed | needs, to manifest | reported by | caught as the check stood |", "|---|---|---|---|---|---|"]
n = caught = first = 0
for mf in sorted(glob.glob(os.path.join(HERE, "seeded", "*", "meta.json"))):
    m = json.load(open(mf))
    n += 1
    caught += 1 if m.get("detected") else 0
    first += 1 if m.get("caught_by_the_check_as_it_stood") else 0
    title = m["title"].split(" - ", 1)[-1].split(": ", 1)[-1].replace("|", "/")
    needs = " ".join(m.get("needs_to_manifest", "").split())[:160].replace("|", "/")
    obl = ", ".join("`%s`" % o.replace("|", "/") for o in m.get("detected_by", {}).get("obligations", [])[:2]) or "**not reported**"
    rows.append("| %s | %s | %s | %s | %s | %s |" % (m["seed"], m.get("round", 1), title, needs, obl,
                "yes" if m.get("caught_by_the_check_as_it_stood") else ("no — " + m.get("strengthened_by", "missed"))))
table = ("%d confirmed seeded changes; %d reported by today's checks; %d were reported by the check as it stood when the seed arrived.\n\n" % (n, caught, first)) + "\n".join(rows) + "\n"
doc = head + "\n".join(out) + "\n" + tail.replace("<!-- SEEDS -->", table)
open(os.path.join(HERE, "DESIGN.md"), "w").write(doc)
print("DESIGN.md", len(doc.splitlines()), "lines;", n, "seeds")
