#!/usr/bin/env python3
"""False-alarm probe: inserts a behaviour-preserving statement at the start of every function the rules anchor on
(`benignProbe()` or `defer benignProbe()`, a no-op), so that the SSA of all of them changes shape (an extra call;
with `defer`, named results are spilled to cells, results are re-loaded after rundefers, a recover block appears).
Usage: benign_probe.py call|defer   (modifies /repo; undo with `git -C /repo checkout -- . && git -C /repo clean -fdq internal`)
Then every check must still exit 0."""
import re, os, sys, subprocess
mode = sys.argv[1] if len(sys.argv) > 1 else "call"
here = os.path.dirname(os.path.dirname(os.path.abspath(__file__)))
src = "".join(open(os.path.join(here, "checker", "rules", f)).read() for f in os.listdir(os.path.join(here, "checker", "rules")) if f.endswith(".go"))
anchors = sorted(set(re.findall(r'p\.Fn\("([^"]*)"\)', src)))
pkgdir = {}
for root, dirs, files in os.walk('/repo/internal'):
    if 'next' in root.split('/'):
        continue
    rel = root[len('/repo/internal/'):]
    if rel:
        pkgdir[rel] = root
done, missing = set(), []
for a in anchors:
    m = re.match(r'^\(\*?([\w/]+)\.(\w+)\)\.(\w+)$', a)
    if m:
        pkg, recv, name = m.groups()
    else:
        m = re.match(r'^([\w/]+)\.(\w+)$', a)
        if not m:
            missing.append(a)
            continue
        pkg, name = m.groups()
        recv = None
    d = pkgdir.get(pkg)
    if not d:
        missing.append(a)
        continue
    found = False
    for fn in sorted(os.listdir(d)):
        if not fn.endswith('.go') or fn.endswith('_test.go'):
            continue
        p = os.path.join(d, fn)
        s = open(p).read()
        if recv:
            pat = re.compile(r'^func \((\w+) \*?%s(\[[^\]]*\])?\) %s\((?:[^{]|\n)*?\{\n' % (recv, name), re.M)
        else:
            pat = re.compile(r'^func %s(\[[^\]]*\])?\((?:[^{]|\n)*?\{\n' % name, re.M)
        mm = pat.search(s)
        if mm and (p, mm.start()) not in done:
            ins = '\tbenignProbe()\n' if mode == "call" else '\tdefer benignProbe()\n'
            open(p, 'w').write(s[:mm.end()] + ins + s[mm.end():])
            done.add((p, mm.start()))
            found = True
            break
    if not found:
        missing.append(a)
for d in set(os.path.dirname(p) for p, _ in done):
    pk = None
    for fn in sorted(os.listdir(d)):
        if fn.endswith('.go') and not fn.endswith('_test.go'):
            pk = re.search(r'^package (\w+)', open(os.path.join(d, fn)).read(), re.M).group(1)
            break
    open(os.path.join(d, 'zz_benign.go'), 'w').write('package %s\n\nimport "os"\n\n// benignProbe does nothing observable.\nfunc benignProbe() { _ = os.Getpid() }\n' % pk)
print('mode', mode, 'functions edited', len(done), 'anchors not located', missing)
