#!/usr/bin/env python3
"""Writes seeded/<id>-<k>/meta.json from the agent's NOTES.md, the verification log and the obligations that fire.
usage: gen_meta.py <k> <round> <keysdir> <caught-as-stood ids, comma separated> [id=strengthened-by text ...]"""
import json, os, re, sys
k, rnd, keysdir, caught = sys.argv[1], int(sys.argv[2]), sys.argv[3], set(sys.argv[4].split(','))
strengthened = dict(a.split('=', 1) for a in sys.argv[5:])
def section(text, *names):
    for name in names:
        m = re.search(r'^##+\s*' + name + r'[^\n]*\n(.*?)(?=^##+\s|\Z)', text, re.S | re.M | re.I)
        if m:
            return m.group(1).strip()
    return ''
for d in sorted(os.listdir('/verif/seeded')):
    if not d.endswith('-' + k):
        continue
    pid = d.split('-')[0]
    base = '/verif/seeded/' + d
    notes = open(base + '/NOTES.md').read()
    title = notes.strip().split('\n')[0].lstrip('# ').strip()
    demos = sorted(os.path.join(r, f)[len(base) + 1:] for r, _, fs in os.walk(base + '/demo') for f in fs if f.endswith('_test.go'))
    pk = open(base + '/demo/PACKAGES').read().split() if os.path.exists(base + '/demo/PACKAGES') else []
    keys = [l.strip() for l in open(f'{keysdir}/keys_{d}.txt') if l.strip()]
    meta = {
        'seed': d, 'property': pid, 'title': title,
        'breaks': section(notes, 'Why it breaks', 'Property clause broken'),
        'needs_to_manifest': section(notes, 'What it needs'),
        'demonstration': {'files': demos, 'packages': pk,
            'how': 'copy the demo test file(s) into the listed package directory of a tree with patch.diff applied and run `go test -count=1 -run TestSeedDemo%s <package>` (fails); on the unpatched tree the same test passes; the full pinned suite passes with the patch applied' % k},
        'what_was_run': section(notes, 'Commands', 'Results', 'Verification', 'What was run'),
        'confirmed_by': 'tools/verify_seed.sh at the current /repo HEAD (unpatched: demo passes; patched: demo fails; patched: whole pinned suite passes), run by the author of /verif, not by the sub-agent that wrote the change',
        'origin': 'written by a fresh sub-agent that was given only the property text and a scratch worktree; nothing from /verif',
        'round': rnd,
        'caught_by_the_check_as_it_stood': pid in caught,
        'detected': len(keys) > 0,
        'detected_by': {'check': f'./check {pid} quick', 'obligations': keys},
    }
    if pid in strengthened:
        meta['strengthened_by'] = strengthened[pid]
    json.dump(meta, open(base + '/meta.json', 'w'), indent=1)
    print(d, len(keys), 'obligations', 'caught' if pid in caught else 'missed->rule')
