#!/bin/bash
# usage: verify_seed.sh <ID> <k>
# Independently re-verifies a sub-agent's seeded change in its scratch worktree /tmp/wt/<ID>:
#   (1) patch applies, builds, full suite passes with it;  (2) demo FAILS with patch;  (3) demo PASSES without.
# On success copies the seed to /verif/seeded/<ID>-<k>/ with meta.json.
ID=$1; K=$2; TGT=${3:-}
WT=/tmp/wt/$ID; SD=$WT/_seed/$K
export GOFLAGS=-mod=mod GOPROXY=off
unset GOTOOLCHAIN GOSUMDB GOWORK
cd $WT || exit 2
git checkout -q -- . ; find internal -name 'zz_seed_demo*_test.go' -delete
# place demos
declare -a PKGS
place() {
  if ls $SD/*_test.go >/dev/null 2>&1; then
    if [ -n "$TGT" ]; then tgt=$TGT; else tgt=$(grep -ho "internal/[a-z/]*zz_seed_demo_test.go" $SD/NOTES.md | sort -u | head -1); tgt=$(dirname $tgt); fi
    cp $SD/*_test.go $WT/$tgt/; PKGS+=("./$tgt/")
  fi
  for sub in $SD/*/; do
    [ -d "$sub" ] || continue
    name=$(basename $sub)
    cp $sub/*_test.go $WT/internal/$name/ && PKGS+=("./internal/$name/")
  done
}
unplace() { find $WT/internal -name 'zz_seed_demo*_test.go' -delete; rm -f $WT/zz_seed_demo_test.go; }
res() { echo "$1" | tee -a $SD/VERIFY.log; }
: > $SD/VERIFY.log
# (3) demo without patch
place
if go test -count=1 -run 'TestSeedDemo|TestZZSeedDemo' "${PKGS[@]}" > $SD/demo_nopatch.log 2>&1; then res "demo without patch: PASS"; NP=1; else res "demo without patch: FAIL (bad seed)"; NP=0; fi
# (2) demo with patch
git apply $SD/patch.diff || { res "patch does not apply"; unplace; exit 1; }
if go test -count=1 -run 'TestSeedDemo|TestZZSeedDemo' "${PKGS[@]}" > $SD/demo_patch.log 2>&1; then res "demo with patch: PASS (bad seed)"; WP=0; else res "demo with patch: FAIL (as intended)"; WP=1; fi
unplace
# (1) full suite with patch, unedited tests
if go build ./... > $SD/suite_patch.log 2>&1 && go test -count=1 ./... >> $SD/suite_patch.log 2>&1; then res "full suite with patch: PASS"; FS=1; else res "full suite with patch: FAIL (bad seed)"; FS=0; fi
git checkout -q -- .
if [ $NP = 1 ] && [ $WP = 1 ] && [ $FS = 1 ]; then
  D=/verif/seeded/$ID-$K; mkdir -p $D
  cp $SD/patch.diff $SD/NOTES.md $D/
  mkdir -p $D/demo; (cd $SD && for f in $(find . -name '*_test.go'); do mkdir -p $D/demo/$(dirname $f); cp $f $D/demo/$f; done)
  echo "${PKGS[@]}" > $D/demo/PACKAGES
  res "CONFIRMED -> $D"
else
  res "REJECTED"
fi
