#!/bin/bash
# Parallel regression over scratch worktrees (never /repo):
#   every seeded change and every mutant must be detected by its own property's quick check,
#   every behaviour-preserving refactoring under benign/ must leave all 20 checks silent.
# FILTER=<regex> restricts the jobs (matched against "kind name patch prop"); K=<n> sets the number of worktrees.
# usage: par_regress.sh [seeds] [mutants] [benign]     (default: all three)
cd /verif || exit 2
WHAT=${@:-seeds mutants benign}
K=${K:-12}
./check list >/dev/null || exit 2
SNAP=/tmp/rw/aghverif.$$; mkdir -p /tmp/rw; cp bin/aghverif $SNAP
HEAD=$(git -C /repo rev-parse HEAD)
jobs=/tmp/rw/jobs.$$; : > $jobs
for w in $WHAT; do
  case $w in
    seeds)   for d in seeded/*/; do n=$(basename $d); echo "seed $n /verif/$d/patch.diff ${n%%-*}" >> $jobs; done ;;
    mutants) for f in mutants/*.diff; do n=$(basename $f .diff); echo "mutant $n /verif/$f ${n%%-*}" >> $jobs; done ;;
    benign)  for d in benign/*/; do n=$(basename $d); echo "benign $n /verif/$d/patch.diff ALL" >> $jobs; done ;;
  esac
done
if [ -n "$FILTER" ]; then grep -E "$FILTER" $jobs > $jobs.f; mv $jobs.f $jobs; fi
for k in $(seq 1 $K); do
  WT=/tmp/rw/wt$k
  [ -d $WT ] || git -C /repo worktree add -q --detach $WT $HEAD || exit 2
  ( cd $WT && git checkout -q --detach $HEAD && git checkout -q -- . && git clean -fdq internal
    awk -v k=$k -v K=$K 'NR%K==k%K' $jobs | while read kind name patch prop; do
      if [ "$prop" = ALL ]; then
        AGHVERIF_BIN=$SNAP /verif/tools/par_patch.sh $WT $patch $name | grep -v " done$" | sed "s/^/FALSE-ALARM benign /"
      else
        out=$(AGHVERIF_BIN=$SNAP /verif/tools/par_patch.sh $WT $patch $name $prop)
        echo "$out" | grep -q -- "-> $prop fires" || echo "MISSED $kind $name ($(echo "$out" | head -1 | cut -c1-120))"
      fi
    done ) > /tmp/rw/out.$$.$k 2>&1 &
done
wait
cat /tmp/rw/out.$$.* > /tmp/rw/result.$$; rm -f /tmp/rw/out.$$.* $SNAP
n=$(wc -l < $jobs); rm -f $jobs
if [ -s /tmp/rw/result.$$ ]; then cat /tmp/rw/result.$$; echo "par_regress: PROBLEMS above ($n jobs)"; rm -f /tmp/rw/result.$$; exit 1; fi
rm -f /tmp/rw/result.$$
echo "par_regress: $n jobs ($WHAT): every seed and mutant detected, every refactoring silent"
