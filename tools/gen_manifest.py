#!/usr/bin/env python3
"""Generates /verif/MANIFEST.json from the table below (kept in one place so the manifest stays valid)."""
import json, os, sys
HERE = os.path.dirname(os.path.dirname(os.path.abspath(__file__)))

NOTE = ("Trusted base: go/types + go/ssa (x/tools v0.50.0) model of the current /repo working tree, the VTA call graph where used, "
        "the frozen rule tables in /verif/checker/rules (every instance confirmed by reading), named third-party behaviour "
        "(net/http mux dispatch, renameio, dnsproxy hooks). A structural necessary condition is decided, not the behaviour: "
        "the rule holding does not prove the property; the rule failing breaks it for some input/schedule/crash point.")

# id -> (technique, level text, design ref)
CLAIMED = {}
def claim(pid, technique, text, ref):
    CLAIMED[pid] = (technique, text, ref)

exec(open(os.path.join(HERE, "tools", "claims.py")).read())

props = [json.loads(l) for l in open(os.path.join(HERE, "properties.jsonl"))]
checks, na = [], []
for p in props:
    pid = p["id"]
    if pid in CLAIMED:
        tech, text, ref = CLAIMED[pid]
        checks.append({
            "property_id": pid,
            "quick_cmd": f"./check {pid} quick",
            "thorough_cmd": f"./check {pid} thorough",
            "evidence_file": f"/verif/evidence/{pid}.json",
            "replay_cmd_template": "./check explain {path}",
            "engine": "aghverif",
            "level_claimed": {"category": "other", "text": text, "design_ref": ref},
            "level_note": NOTE,
            "technique": tech,
        })
    else:
        na.append({"property_id": pid, "reason": NOT_APPLICABLE.get(pid, "no sound static rule built for this property (see DESIGN.md §6)")})

m = {
    "version": 1,
    "setup_cmd": "./setup.sh",
    "hooks": {
        "guard": "verif",
        "enable": "none needed: static analysis reads the source; no instrumentation hooks exist in /repo",
        "baseline_off_cmd": "cd /repo && go test -mod=mod -json -vet=off -count=1 -timeout 25m ./...",
        "source_commits": [],
        "add_only": True,
    },
    "engines": [{
        "name": "aghverif",
        "path": "/verif/checker",
        "serves_properties": sorted(CLAIMED),
        "kind_free_text": "repository-specific static analyser (go/packages + go/types + go/ssa + VTA call graph): route census, path-guard queries on SSA CFGs, who-may-call/write tables, provenance slices, lockset / lock-order analysis, agreement checks",
    }],
    "checks": checks,
    "not_applicable": na,
    "notes": "All checks decide from the source of the current /repo working tree without executing it. Known genuine defects are listed in /verif/known_findings.txt (finding:/fixed: lines).",
}
json.dump(m, open(os.path.join(HERE, "MANIFEST.json"), "w"), indent=1)
print("claimed", len(checks), "not_applicable", len(na))
